"""Copy a confirmed behaviour-preserving refactoring into /verif/twins/<id>/ (patch.diff, equiv.py, notes.md, meta.json).
usage: python tools/importtwin.py <source dir> <twin id> <property> "<what was refactored>" """
import json, pathlib, shutil, sys
src, tid, prop, what = pathlib.Path(sys.argv[1]), sys.argv[2], sys.argv[3], sys.argv[4]
dst = pathlib.Path(__file__).resolve().parent.parent / "twins" / tid
dst.mkdir(parents=True, exist_ok=True)
for f in ("patch.diff", "equiv.py", "notes.md"):
    if (src / f).exists():
        shutil.copy(src / f, dst / f)
tc = json.loads((src / "twincheck.json").read_text())
meta = {"twin": tid, "property": prop, "origin": "independent sub-agent given only the property text and a scratch worktree; asked for a behaviour-preserving refactoring",
        "refactoring": what, "base_commit": tc.get("base_commit"), "files_touched": tc.get("files_touched"),
        "confirmed_equivalent": tc.get("confirmed_equivalent"),
        "what_was_run": {"differential script equiv.py (old tree vs patched tree), exit": tc.get("equiv", {}).get("exit"), "unedited test suite with the change": tc.get("test_suite")},
        "checks_not_silent_when_first_run": tc.get("checks_not_silent")}
(dst / "meta.json").write_text(json.dumps(meta, indent=1))
print(tid, "->", sorted(meta["checks_not_silent_when_first_run"] or {}))
